"""V-engine: verification-condition generator for the integer / index code of bempp-cl (DESIGN 2.2).

Input : the `ast` of a real function, re-read from /repo on every run, plus a sidecar contract (requires / ensures / raises / loop
        invariants, written as Python expressions over a small vocabulary).
Method: forward symbolic execution over z3 terms.  `if` forks the path; loops are cut at their invariant (assert on entry, havoc the
        variables assigned in the body, assume invariant and guard, execute the body, assert the invariant; continue after the loop from
        invariant and not guard); `return` / `raise` end a path against `ensures` / `raises`; calls to functions that have a contract use
        the contract only.  Every assertion point becomes one named obligation, discharged by z3 (unsat of the negation) and retried on
        cvc5 when z3 answers unknown.
Encoding assumptions (stated in every evidence file): Python / NumPy integers are mathematical integers (no int32/uint32 wrap-around);
        arrays are values (no aliasing); Numba `locals=` type pins and decorator options are dropped; termination is not proved.
Subset : assignments (names, tuples, subscripts), augmented assignment, if/elif/else, for over range / enumerate(array) / array, return,
        raise, break/continue are NOT supported inside cut loops (functions using them with a return inside the loop are handled by the
        return-inside-loop rule), int arithmetic (+ - * // %), comparisons, and/or/not, tuples, len, 1-d and 2-d integer arrays with
        symbolic shape (z3 arrays), small arrays of literal shape (entry lists), column / tail slices, np.empty / np.zeros, tuple stores into
        columns, .flatten() of literal-shape arrays, dict with pair keys (in / get / set), list of pairs (append), enumerate.
Anything else raises Unsupported -> the function is reported undecided, never as proved and never as a violation.
"""

import ast
import inspect
import textwrap
import time

import z3


class Unsupported(Exception):
    pass


# ---------------------------------------------------------------------------------------------
# symbolic values
# ---------------------------------------------------------------------------------------------


class Arr1:
    """1-d integer array: get(i) and length (z3 terms)."""

    def __init__(self, get, length, parent=None, lo=None):
        self.get, self.length = get, length
        # a[lo:hi] views remember the array they are cut from, so that quantified facts about them can be stated over the indices of the parent
        # (`parent[q]`, lo <= q < hi) instead of `parent[i + lo]`: solvers match the former, not the latter
        self.parent, self.lo = parent, lo


class Arr2:
    """2-d integer array with symbolic shape, stored as a z3 nested array."""

    def __init__(self, term, shape):
        self.term, self.shape = term, shape

    def get(self, i, j):
        return z3.Select(z3.Select(self.term, i), j)

    def set(self, i, j, v):
        return Arr2(z3.Store(self.term, i, z3.Store(z3.Select(self.term, i), j, v)), self.shape)


class Small:
    """array of literal shape: nested python lists of z3 terms (None = uninitialised)."""

    def __init__(self, shape, data=None):
        self.shape = shape
        if data is None:
            data = [None] * shape[0] if len(shape) == 1 else [[None] * shape[1] for _ in range(shape[0])]
        self.data = data

    def copy(self):
        return Small(self.shape, [list(r) if isinstance(r, list) else r for r in self.data])


class PairDict:
    """dict with (int, int) keys: membership and value as nested z3 arrays."""

    def __init__(self, has, val):
        self.has, self.val = has, val


class PairList:
    """list of (int, int) tuples: two z3 arrays and a length."""

    def __init__(self, a0, a1, length):
        self.a0, self.a1, self.length = a0, a1, length


class TripleRel:
    """list of lists of (int, int) tuples, abstracted to the relation {(d, a, b)}: order and multiplicity of the entries are dropped."""

    def __init__(self, has, length):
        self.has, self.length = has, length

    def member(self, d, a, b):
        return z3.Select(z3.Select(z3.Select(self.has, d), a), b)


class RelRow:
    """one inner list of a TripleRel"""

    def __init__(self, rel, d):
        self.rel, self.d = rel, d


class IntSet:
    """python set of ints: characteristic function Int -> Bool"""

    def __init__(self, has):
        self.has = has

    def member(self, x):
        return z3.Select(self.has, as_int(x))


class ImageSet:
    """arr[list(S)]: the collection {arr[x] : x in S} (only membership tests are supported)"""

    def __init__(self, arr, st):
        self.arr, self.st = arr, st


class FilterSeq:
    """[x for x in base if cond(x)] over a 1-d integer array: the elements base[i], 0 <= i < len(base), with cond(base[i]), in order.  `cond` is a closure
    over the environment at the time the comprehension was evaluated (Python builds the list eagerly, so later assignments do not change it)."""

    def __init__(self, base, cond, text=""):
        self.base, self.cond, self.text = base, cond, text


class Opaque:
    """Value of an expression outside the subset, in `opaque_ok` (block extraction) mode: completely unconstrained.  Every integer / boolean
    observation of it is a fresh unconstrained term, so whatever the real expression computes is covered (sound over-approximation for
    safety properties, provided the expression has no side effect and does not raise -- listed as dropped by the extraction)."""

    def __init__(self, what=""):
        self.what = what


I = z3.IntSort()
A1 = z3.ArraySort(I, I)
A2 = z3.ArraySort(I, A1)
AB = z3.ArraySort(I, z3.ArraySort(I, z3.BoolSort()))
ABB = z3.ArraySort(I, AB)
AS = z3.ArraySort(I, z3.BoolSort())

_fresh = [0]

# Bounded-instance mode (counterexample SEARCH only, never used for proving): quantifiers over index ranges are expanded for ranges of at most B entries, the
# side conditions "the range has at most B entries" are collected, unbounded quantifiers are instantiated on a small box.  A model of the resulting formula is a
# candidate input; it counts only if the real block, run natively on it, violates the contract (vlib/vbounded.py).
BOUNDED = {"B": None, "side": []}


def q_range(kind, lo, hi, fn):
    """forall / exists over the integer range [lo, hi) of fn(index) -> Bool, honouring the bounded-instance mode"""
    lo, hi = as_int(lo), as_int(hi)
    B = BOUNDED["B"]
    if B is None:
        v = fresh("q")
        rng = z3.And(lo <= v, v < hi)
        return z3.ForAll([v], z3.Implies(rng, fn(v))) if kind == "forall" else z3.Exists([v], z3.And(rng, fn(v)))
    BOUNDED["side"].append(hi - lo <= B)
    if kind == "forall":
        return z3.And(*[z3.Implies(lo + t < hi, fn(lo + t)) for t in range(B)])
    return z3.Or(*[z3.And(lo + t < hi, fn(lo + t)) for t in range(B)])



def fresh(name, sort=I):
    _fresh[0] += 1
    return z3.Const("%s!%d" % (name, _fresh[0]), sort)


def fresh_like(name, v):
    if isinstance(v, Arr2):
        return Arr2(fresh(name, A2), v.shape)
    if isinstance(v, Arr1):
        a = fresh(name, A1)
        return Arr1(lambda i, a=a: z3.Select(a, i), v.length)
    if isinstance(v, PairDict):
        return PairDict(fresh(name + "_has", AB), fresh(name + "_val", A2))
    if isinstance(v, PairList):
        return PairList(fresh(name + "_0", A1), fresh(name + "_1", A1), fresh(name + "_len"))
    if isinstance(v, TripleRel):
        return TripleRel(fresh(name + "_rel", ABB), v.length)
    if isinstance(v, IntSet):
        return IntSet(fresh(name + "_set", AS))
    if isinstance(v, Small):
        s = Small(v.shape)
        if len(v.shape) == 1:
            s.data = [fresh(name) for _ in range(v.shape[0])]
        else:
            s.data = [[fresh(name) for _ in range(v.shape[1])] for _ in range(v.shape[0])]
        return s
    if isinstance(v, tuple):
        return tuple(fresh_like(name, x) for x in v)
    if z3.is_bool(v):
        return fresh(name, z3.BoolSort())
    return fresh(name)


def _tuple_get(t, i):
    out = as_int(t[-1])
    for k in range(len(t) - 2, -1, -1):
        out = z3.If(as_int(i) == k, as_int(t[k]), out)
    return out


def as_int(v):
    if isinstance(v, Opaque):
        return fresh("opaque")
    if z3.is_bool(v):
        return z3.If(v, z3.IntVal(1), z3.IntVal(0))
    if isinstance(v, bool):
        return z3.IntVal(1 if v else 0)
    if isinstance(v, int):
        return z3.IntVal(v)
    return v


def as_bool(v):
    if isinstance(v, Opaque):
        return fresh("opaqueb", z3.BoolSort())
    if isinstance(v, bool):
        return z3.BoolVal(v)
    if z3.is_bool(v):
        return v
    return as_int(v) != 0


# ---------------------------------------------------------------------------------------------
# contract expressions (same text is evaluated natively for replay by vlib.vnative)
# ---------------------------------------------------------------------------------------------


class ExprEval:
    """Translate a Python expression AST to z3 under an environment of symbolic values."""

    def __init__(self, env, engine=None):
        self.env = env
        self.engine = engine

    def ev(self, node):
        m = getattr(self, "ev_" + type(node).__name__, None)
        opaque_ok = self.engine is not None and getattr(self.engine, "opaque_ok", False)
        if m is None:
            if opaque_ok:
                self.engine.opaque_log.append(ast.unparse(node)[:80])
                return Opaque(ast.unparse(node)[:40])
            raise Unsupported("expression %s" % type(node).__name__)
        if not opaque_ok:
            return m(node)
        try:
            return m(node)
        except Unsupported:
            self.engine.opaque_log.append(ast.unparse(node)[:80])
            return Opaque(ast.unparse(node)[:40])

    def ev_Constant(self, n):
        if isinstance(n.value, bool):
            return z3.BoolVal(n.value)
        if isinstance(n.value, int):
            return z3.IntVal(n.value)
        if n.value is None:
            return None
        raise Unsupported("constant %r" % (n.value,))

    def ev_Name(self, n):
        if n.id in self.env:
            return self.env[n.id]
        if n.id in ("True", "False"):
            return z3.BoolVal(n.id == "True")
        raise Unsupported("unknown name %s" % n.id)

    def ev_Tuple(self, n):
        return tuple(self.ev(e) for e in n.elts)

    def ev_Set(self, n):
        has = z3.K(I, z3.BoolVal(False))
        for e in n.elts:
            has = z3.Store(has, as_int(self.ev(e)), z3.BoolVal(True))
        return IntSet(has)

    def ev_UnaryOp(self, n):
        v = self.ev(n.operand)
        if isinstance(n.op, ast.USub) and isinstance(v, Small) and len(v.shape) == 1:
            out = Small(v.shape)
            out.data = [-as_int(x) for x in v.data]
            return out
        if isinstance(n.op, ast.USub) and isinstance(v, Arr1):
            return Arr1(lambda i, v=v: -as_int(v.get(i)), v.length, parent=None)
        if isinstance(n.op, ast.USub):
            return -as_int(v)
        if isinstance(n.op, ast.Not):
            return z3.Not(as_bool(v))
        raise Unsupported("unary operator")

    def ev_BinOp(self, n):
        a, b = self.ev(n.left), self.ev(n.right)
        if isinstance(a, Small) and isinstance(n.op, ast.Add) and isinstance(b, Small):
            raise Unsupported("array addition")
        a, b = as_int(a), as_int(b)
        if isinstance(n.op, ast.Add):
            return a + b
        if isinstance(n.op, ast.Sub):
            return a - b
        if isinstance(n.op, ast.Mult):
            return a * b
        if isinstance(n.op, ast.FloorDiv):
            # Python floor division; z3 integer division rounds towards -inf for positive divisors
            return a / b
        if isinstance(n.op, ast.Mod):
            return a % b
        raise Unsupported("binary operator %s" % type(n.op).__name__)

    def ev_BoolOp(self, n):
        vals = [as_bool(self.ev(v)) for v in n.values]
        return z3.And(*vals) if isinstance(n.op, ast.And) else z3.Or(*vals)

    def ev_Compare(self, n):
        terms = [n.left] + n.comparators
        parts = []
        for op, l, r in zip(n.ops, terms, terms[1:]):
            if isinstance(op, (ast.Is, ast.IsNot)):
                if isinstance(l, ast.Name) and isinstance(r, ast.Constant) and r.value is None and (l.id + "__isnone") in self.env:
                    t = self.env[l.id + "__isnone"]
                    parts.append(t if isinstance(op, ast.Is) else z3.Not(t))
                    continue
                raise Unsupported("`is` other than `<optional argument> is [not] None`")
            if isinstance(op, (ast.In, ast.NotIn)):
                key, cont = self.ev(l), self.ev(r)
                if isinstance(cont, IntSet):
                    t = cont.member(key)
                    parts.append(t if isinstance(op, ast.In) else z3.Not(t))
                    continue
                if isinstance(cont, ImageSet):
                    q = fresh("img")
                    t = z3.Exists([q], z3.And(cont.st.member(q), as_int(cont.arr.get(q)) == as_int(key)))
                    parts.append(t if isinstance(op, ast.In) else z3.Not(t))
                    continue
                if isinstance(cont, RelRow) and isinstance(key, tuple) and len(key) == 2:
                    t = cont.rel.member(as_int(cont.d), as_int(key[0]), as_int(key[1]))
                    parts.append(t if isinstance(op, ast.In) else z3.Not(t))
                    continue
                if isinstance(cont, PairDict) and isinstance(key, tuple) and len(key) == 2:
                    t = z3.Select(z3.Select(cont.has, as_int(key[0])), as_int(key[1]))
                    parts.append(t if isinstance(op, ast.In) else z3.Not(t))
                    continue
                if isinstance(cont, tuple):
                    t = z3.Or(*[as_int(key) == as_int(c) for c in cont])
                    parts.append(t if isinstance(op, ast.In) else z3.Not(t))
                    continue
                raise Unsupported("`in` on this container")
            a, b = self.ev(l), self.ev(r)
            if isinstance(a, Arr1) and not isinstance(b, (Arr1, tuple, Small)) and isinstance(op, (ast.Eq, ast.NotEq)) and len(n.ops) == 1:
                # numpy element-wise comparison of a 1-d array with a scalar: a 0/1 array of the same length
                bv = as_int(b)
                eq = isinstance(op, ast.Eq)
                return Arr1(lambda i, a=a, bv=bv, eq=eq: z3.If((as_int(a.get(i)) == bv) if eq else (as_int(a.get(i)) != bv), z3.IntVal(1), z3.IntVal(0)), a.length)
            if isinstance(a, tuple) and isinstance(b, tuple):
                eq = z3.And(*[as_int(x) == as_int(y) for x, y in zip(a, b)])
                parts.append(eq if isinstance(op, ast.Eq) else z3.Not(eq))
                continue
            if z3.is_bool(a) and z3.is_bool(b) and isinstance(op, (ast.Eq, ast.NotEq)):
                parts.append(a == b if isinstance(op, ast.Eq) else a != b)
                continue
            a, b = as_int(a), as_int(b)
            parts.append({ast.Lt: a < b, ast.LtE: a <= b, ast.Gt: a > b, ast.GtE: a >= b, ast.Eq: a == b, ast.NotEq: a != b}[type(op)])
        return z3.And(*parts) if len(parts) > 1 else parts[0]

    def ev_ListComp(self, n):
        # [x for x in SEQ if COND(x)]  (one generator, element == loop variable)
        if len(n.generators) != 1 or not isinstance(n.elt, ast.Name) or not isinstance(n.generators[0].target, ast.Name) or n.elt.id != n.generators[0].target.id:
            raise Unsupported("list comprehension of this shape")
        gen = n.generators[0]
        base = self.ev(gen.iter)
        if not isinstance(base, Arr1):
            raise Unsupported("list comprehension over a non-array")
        env0, eng, var, ifs = dict(self.env), self.engine, gen.target.id, list(gen.ifs)

        def cond(x):
            sub = ExprEval(dict(env0, **{var: x}), None)
            return z3.And(*[as_bool(sub.ev(c)) for c in ifs]) if ifs else z3.BoolVal(True)

        cond(fresh("probe"))   # raises Unsupported now if the filter is outside the subset
        return FilterSeq(base, cond, ast.unparse(n)[:80])

    def ev_IfExp(self, n):
        return z3.If(as_bool(self.ev(n.test)), as_int(self.ev(n.body)), as_int(self.ev(n.orelse)))

    def ev_Attribute(self, n):
        v = self.ev(n.value)
        if n.attr == "shape" and isinstance(v, (Arr2, Small)):
            return tuple(as_int(s) for s in v.shape)
        if n.attr == "T":
            if isinstance(v, PairList):
                return v
            raise Unsupported(".T")
        raise Unsupported("attribute .%s" % n.attr)

    def index_list(self, n):
        s = n.slice
        return list(s.elts) if isinstance(s, ast.Tuple) else [s]

    def ev_Subscript(self, n):
        base = self.ev(n.value)
        idx = self.index_list(n)
        if isinstance(base, tuple):
            i = self.ev(idx[0])
            if z3.is_int_value(as_int(i)):
                return base[as_int(i).as_long()]
            # symbolic index into a python tuple of ints: chain of ite
            out = as_int(base[-1])
            for k in range(len(base) - 2, -1, -1):
                out = z3.If(as_int(i) == k, as_int(base[k]), out)
            return out
        if isinstance(base, TripleRel):
            return RelRow(base, as_int(self.ev(idx[0])))
        if isinstance(base, Arr2):
            if len(idx) == 1 and not isinstance(idx[0], ast.Slice):
                w = z3.simplify(as_int(base.shape[1]))
                i = as_int(self.ev(idx[0]))
                if z3.is_int_value(w):
                    return tuple(base.get(i, z3.IntVal(j)) for j in range(w.as_long()))
                return Arr1(lambda j, b=base, i=i: b.get(i, j), as_int(base.shape[1]))
            if len(idx) != 2:
                raise Unsupported("row access of a 2-d array")
            s0, s1 = idx
            if isinstance(s0, ast.Slice) and s0.lower is None and s0.upper is None and not isinstance(s1, ast.Slice):
                j = as_int(self.ev(s1))
                return Arr1(lambda i, b=base, j=j: b.get(i, j), as_int(base.shape[0]))
            if isinstance(s0, ast.Slice) or isinstance(s1, ast.Slice):
                raise Unsupported("general slice of a 2-d array")
            return base.get(as_int(self.ev(s0)), as_int(self.ev(s1)))
        if isinstance(base, Arr1):
            s0 = idx[0]
            if not isinstance(s0, ast.Slice):
                iv = self.ev(s0)
                if isinstance(iv, IntSet):
                    return ImageSet(base, iv)
                if isinstance(iv, tuple):
                    return tuple(base.get(as_int(x)) for x in iv)
            if isinstance(s0, ast.Slice):
                if s0.step is not None:
                    raise Unsupported("slice with step")
                lo = as_int(self.ev(s0.lower)) if s0.lower is not None else z3.IntVal(0)
                if s0.upper is not None:
                    # a[lo:hi]: Python clips out-of-range bounds silently; the engine demands 0 <= lo <= hi <= len(a) instead (obligation), so the view is exact
                    hi = as_int(self.ev(s0.upper))
                    if self.engine is not None:
                        self.engine.emit("slice-bounds[%s]" % ast.unparse(n)[:50], self.engine.curpath, z3.And(0 <= lo, lo <= hi, hi <= base.length), n.lineno)
                    return Arr1(lambda i, b=base, lo=lo: b.get(i + lo), hi - lo, parent=base, lo=lo)
                return Arr1(lambda i, b=base, lo=lo: b.get(i + lo), base.length - lo)
            return base.get(as_int(self.ev(s0)))
        if isinstance(base, Small):
            ks = []
            for s in idx:
                if isinstance(s, ast.Slice):
                    ks.append(None)
                else:
                    v = z3.simplify(as_int(self.ev(s)))
                    if not z3.is_int_value(v):
                        if len(idx) == 1 and len(base.shape) == 2:
                            # symbolic row of a literal table: tuple of if-then-else chains
                            out = []
                            for c in range(base.shape[1]):
                                t = as_int(base.data[-1][c])
                                for r in range(base.shape[0] - 2, -1, -1):
                                    t = z3.If(v == r, as_int(base.data[r][c]), t)
                                out.append(t)
                            return tuple(out)
                        raise Unsupported("symbolic index into a literal-shape array")
                    ks.append(v.as_long())
            if len(base.shape) == 2 and len(ks) == 1:
                return tuple(base.data[ks[0]])
            if len(base.shape) == 1:
                v = base.data[ks[0]]
            elif ks[0] is None and ks[1] is not None:
                return tuple(base.data[r][ks[1]] for r in range(base.shape[0]))
            else:
                v = base.data[ks[0]][ks[1]]
            if v is None:
                raise Unsupported("read of an uninitialised array entry")
            return v
        if isinstance(base, PairDict):
            key = tuple(self.ev(e) for e in idx) if len(idx) == 2 else self.ev(idx[0])
            return z3.Select(z3.Select(base.val, as_int(key[0])), as_int(key[1]))
        if isinstance(base, PairList):
            if len(idx) == 1:
                k = as_int(self.ev(idx[0]))
                return (z3.Select(base.a0, k), z3.Select(base.a1, k))
            r = z3.simplify(as_int(self.ev(idx[0])))
            k = as_int(self.ev(idx[1]))
            if not z3.is_int_value(r):
                raise Unsupported("symbolic component index into a pair list")
            return z3.Select(base.a0 if r.as_long() == 0 else base.a1, k)
        raise Unsupported("subscript of %s" % type(base).__name__)

    def ev_Call(self, n):
        f = n.func
        name = f.id if isinstance(f, ast.Name) else (f.attr if isinstance(f, ast.Attribute) else None)
        if name == "len":
            v = self.ev(n.args[0])
            if isinstance(v, Arr1):
                return v.length
            if isinstance(v, PairList):
                return v.length
            if isinstance(v, tuple):
                return z3.IntVal(len(v))
            if isinstance(v, Small):
                return z3.IntVal(v.shape[0])
            if isinstance(v, Arr2):
                return as_int(v.shape[0])
            if isinstance(v, TripleRel):
                return v.length
            if isinstance(v, FilterSeq) and self.engine is not None:
                # only what the code under contract observes of the length: 0 <= L <= len(base), and L == 0 iff no element passes the filter
                L = fresh("flen")
                par = v.base.parent if v.base.parent is not None else v.base
                lo = v.base.lo if v.base.parent is not None else z3.IntVal(0)
                hi = lo + v.base.length
                ok = lambda t: v.cond(as_int(par.get(t)))   # noqa: E731
                none = q_range("forall", lo, hi, lambda t: z3.Not(ok(t)))
                # ... and, for comparisons with the small constants that occur in the code (len(..) == 1, == 2): L >= 2 iff two positions pass, L >= 3 iff three
                two = q_range("exists", lo, hi, lambda a: z3.And(ok(a), q_range("exists", a + 1, hi, ok)))
                three = q_range("exists", lo, hi, lambda a: z3.And(ok(a), q_range("exists", a + 1, hi, lambda b: z3.And(ok(b), q_range("exists", b + 1, hi, ok)))))
                self.engine.curpath = self.engine.curpath + [L >= 0, L <= v.base.length, (L == 0) == none, (L >= 2) == two, (L >= 3) == three]
                return L
            raise Unsupported("len of %s" % type(v).__name__)
        if name == "list" and len(n.args) == 1:
            v = self.ev(n.args[0])
            if isinstance(v, (IntSet, tuple)):
                return v
            raise Unsupported("list() of this value")
        if name == "next" and len(n.args) == 1 and isinstance(n.args[0], ast.GeneratorExp) and self.engine is not None:
            # next(x for x in range(n) if cond(x)): the least x in [0, n) with cond(x); its existence (no StopIteration) is an obligation
            g = n.args[0]
            gen = g.generators[0]
            if (len(g.generators) != 1 or not isinstance(g.elt, ast.Name) or not isinstance(gen.target, ast.Name) or g.elt.id != gen.target.id
                    or not (isinstance(gen.iter, ast.Call) and getattr(gen.iter.func, "id", None) == "range" and len(gen.iter.args) == 1)):
                raise Unsupported("next() of this generator")
            bound = as_int(self.ev(gen.iter.args[0]))

            def cond(x):
                sub = ExprEval(dict(self.env, **{gen.target.id: x}), self.engine)
                return z3.And(*[as_bool(sub.ev(c)) for c in gen.ifs]) if gen.ifs else z3.BoolVal(True)

            w = fresh("cand")
            if not self.engine.contract.get("assume_next_exists"):
                self.engine.emit("next[generator is not exhausted]", self.engine.curpath, z3.Exists([w], z3.And(0 <= w, w < bound, cond(w))), n.lineno)
            c, q = fresh("next"), fresh("q")
            self.engine.curpath = self.engine.curpath + [0 <= c, c < bound, cond(c), z3.ForAll([q], z3.Implies(z3.And(0 <= q, q < c), z3.Not(cond(q))))]
            return c
        if name == "tuple" and len(n.args) == 1:
            v = self.ev(n.args[0])
            if isinstance(v, (RelRow, tuple)):
                return v
            raise Unsupported("tuple() of this value")
        if name == "ncols":
            v = self.ev(n.args[0])
            if isinstance(v, PairList):
                return v.length
            if isinstance(v, Arr2):
                return as_int(v.shape[1])
            raise Unsupported("ncols of %s" % type(v).__name__)
        if name in ("forall", "exists"):
            lo, hi, lam = n.args
            if not isinstance(lam, ast.Lambda) or len(lam.args.args) != 1:
                raise Unsupported("quantifier needs a one-argument lambda")
            lov, hiv = z3.simplify(as_int(self.ev(lo))), z3.simplify(as_int(self.ev(hi)))
            if z3.is_int_value(lov) and z3.is_int_value(hiv) and hiv.as_long() - lov.as_long() <= 4:
                # literal small range: expand (keeps the formulas free of needless quantifier alternation)
                parts = [as_bool(ExprEval(dict(self.env, **{lam.args.args[0].arg: z3.IntVal(t)}), self.engine).ev(lam.body)) for t in range(lov.as_long(), hiv.as_long())]
                if name == "forall":
                    return z3.And(*parts) if parts else z3.BoolVal(True)
                return z3.Or(*parts) if parts else z3.BoolVal(False)
            if BOUNDED["B"] is not None:
                return q_range(name, lov, hiv, lambda t: as_bool(ExprEval(dict(self.env, **{lam.args.args[0].arg: t}), self.engine).ev(lam.body)))
            v = fresh(lam.args.args[0].arg)
            sub = ExprEval(dict(self.env, **{lam.args.args[0].arg: v}), self.engine)
            body = as_bool(sub.ev(lam.body))
            rng = z3.And(as_int(self.ev(lo)) <= v, v < as_int(self.ev(hi)))
            return z3.ForAll([v], z3.Implies(rng, body)) if name == "forall" else z3.Exists([v], z3.And(rng, body))
        if name == "forall_any":
            lam = n.args[0]
            if BOUNDED["B"] is not None:
                import itertools as _it

                box = range(-1, BOUNDED["B"] + 3)
                return z3.And(*[as_bool(ExprEval(dict(self.env, **{a.arg: z3.IntVal(t) for a, t in zip(lam.args.args, combo)}), self.engine).ev(lam.body))
                                for combo in _it.product(box, repeat=len(lam.args.args))])
            vs = [fresh(a.arg) for a in lam.args.args]
            sub = ExprEval(dict(self.env, **{a.arg: v for a, v in zip(lam.args.args, vs)}), self.engine)
            return z3.ForAll(vs, as_bool(sub.ev(lam.body)))
        if name == "array" and isinstance(f, ast.Attribute) and n.args:
            v = self.ev(n.args[0])
            if isinstance(v, PairList):
                return v
            raise Unsupported("np.array of this value")
        if name == "implies":
            return z3.Implies(as_bool(self.ev(n.args[0])), as_bool(self.ev(n.args[1])))
        if name == "iff":
            return as_bool(self.ev(n.args[0])) == as_bool(self.ev(n.args[1]))
        if name == "full" and isinstance(f, ast.Attribute) and len(n.args) == 2 and self.engine is not None:
            fill = as_int(self.ev(n.args[1]))
            return Arr1(lambda i, fill=fill: fill, as_int(self.ev(n.args[0])))
        if name == "arange" and isinstance(f, ast.Attribute) and n.args and self.engine is not None:
            return Arr1(lambda i: i, as_int(self.ev(n.args[0])))
        if name in ("where", "flatnonzero") and isinstance(f, ast.Attribute) and len(n.args) == 1 and self.engine is not None:
            # np.where(b) of a 1-d array: (W,) with W the increasing list of the positions where b is non-zero; np.flatnonzero(b) is W itself
            b = self.ev(n.args[0])
            if not isinstance(b, Arr1):
                raise Unsupported("np.where of this value")
            w, L, qi, qj, qe, qw = fresh("where", A1), fresh("wlen"), fresh("i"), fresh("j"), fresh("e"), fresh("w")
            nz = lambda t: as_int(b.get(t)) != 0   # noqa: E731
            self.engine.curpath = self.engine.curpath + [
                L >= 0, L <= b.length,
                z3.ForAll([qi], z3.Implies(z3.And(0 <= qi, qi < L), z3.And(0 <= z3.Select(w, qi), z3.Select(w, qi) < b.length, nz(z3.Select(w, qi))))),
                z3.ForAll([qi, qj], z3.Implies(z3.And(0 <= qi, qi < qj, qj < L), z3.Select(w, qi) < z3.Select(w, qj))),
                z3.ForAll([qe], z3.Implies(z3.And(0 <= qe, qe < b.length, nz(qe)), z3.Exists([qw], z3.And(0 <= qw, qw < L, z3.Select(w, qw) == qe))))]
            W = Arr1(lambda i, w=w: z3.Select(w, i), L)
            return (W,) if name == "where" else W
        if name in ("max", "min") and len(n.args) == 1 and self.engine is not None:
            v = self.ev(n.args[0])
            if isinstance(v, Small) and len(v.shape) == 1:
                v = tuple(v.data)
            if isinstance(v, Arr1) and name == "max":
                # maximum of a non-empty 1-d array (Python raises on an empty one: obligation)
                self.engine.emit("raises[max() of an empty array]", self.engine.curpath, v.length > 0, n.lineno)
                m, qi, wi = fresh("max"), fresh("i"), fresh("wi")
                self.engine.curpath = self.engine.curpath + [z3.ForAll([qi], z3.Implies(z3.And(0 <= qi, qi < v.length), as_int(v.get(qi)) <= m)),
                                                             0 <= wi, wi < v.length, as_int(v.get(wi)) == m]
                return m
            if isinstance(v, Arr2) and name == "max":
                # maximum of all entries of a non-empty 2-d array: an upper bound that is attained
                m, qi, qj, wi, wj = fresh("max"), fresh("i"), fresh("j"), fresh("wi"), fresh("wj")
                r, c = as_int(v.shape[0]), as_int(v.shape[1])
                self.engine.curpath = self.engine.curpath + [
                    z3.ForAll([qi, qj], z3.Implies(z3.And(0 <= qi, qi < r, 0 <= qj, qj < c), v.get(qi, qj) <= m)),
                    z3.Implies(z3.And(r > 0, c > 0), z3.And(0 <= wi, wi < r, 0 <= wj, wj < c, v.get(wi, wj) == m))]
                return m
            if isinstance(v, tuple) and v:
                m = fresh(name)
                items = [as_int(x) for x in v]
                self.engine.curpath = self.engine.curpath + [z3.Or(*[m == x for x in items])] + [(m >= x if name == "max" else m <= x) for x in items]
                return m
            raise Unsupported("%s of this value" % name)
        if name == "ones" and isinstance(f, ast.Attribute) and n.args:
            k = z3.simplify(as_int(self.ev(n.args[0])))
            if z3.is_int_value(k):
                out = Small((k.as_long(),))
                out.data = [z3.IntVal(1)] * k.as_long()
                return out
            return Arr1(lambda i: z3.IntVal(1), k)
        if name in ("min", "max") and len(n.args) == 2:
            a, b = as_int(self.ev(n.args[0])), as_int(self.ev(n.args[1]))
            return z3.If(a <= b, a, b) if name == "min" else z3.If(a >= b, a, b)
        if name == "flatten" and isinstance(f, ast.Attribute):
            v = self.ev(f.value)
            if isinstance(v, Small) and len(v.shape) == 2:
                return tuple(v.data[r][c] for r in range(v.shape[0]) for c in range(v.shape[1]))
            raise Unsupported("flatten of a symbolic-shape array")
        if self.engine is not None:
            return self.engine.call(name, n, self)
        raise Unsupported("call %s" % name)


def parse_expr(text):
    return ast.parse(textwrap.dedent(text).strip(), mode="eval").body


# ---------------------------------------------------------------------------------------------
# verification-condition generation
# ---------------------------------------------------------------------------------------------


class Obligation:
    def __init__(self, name, kind, assumptions, goal, line=None, expect_sat=False):
        self.name, self.kind, self.assumptions, self.goal, self.line, self.expect_sat = name, kind, list(assumptions), goal, line, expect_sat


class Return(Exception):
    pass


class Engine:
    """One function under one contract."""

    def __init__(self, func, contract, contracts=None, module_consts=None, source=None):
        self.func = getattr(func, "py_func", func)
        self.contract = contract
        self.contracts = contracts or {}
        self.module_consts = module_consts or {}
        src = source if source is not None else textwrap.dedent(inspect.getsource(self.func))
        self.fd = ast.parse(src).body[0]
        self.qual = contract.get("name", self.func.__name__)
        self.obligations = []
        self.loop_count = 0
        self.counter = {}
        self.opaque_ok = bool(contract.get("opaque_ok"))
        self.opaque_log = []
        self.curpath = []

    # -- helpers --------------------------------------------------------------------------------
    def _name(self, kind, line):
        k = (kind, line)
        self.counter[k] = self.counter.get(k, 0) + 1
        return "%s::%s#%d@%s" % (self.qual, kind, self.counter[k], line)

    def emit(self, kind, path, goal, line, expect_sat=False):
        self.obligations.append(Obligation(self._name(kind, line), kind, path, goal, line, expect_sat))

    def emit_all(self, kind, path, texts, env, line, extra=None):
        for t in texts:
            ev = ExprEval(dict(env, **(extra or {})), None)
            self.emit(kind + "[" + t[:60] + "]", path, as_bool(ev.ev(parse_expr(t))), line)

    def assume_all(self, texts, env, extra=None):
        out = []
        for t in texts:
            ev = ExprEval(dict(env, **(extra or {})), None)
            out.append(as_bool(ev.ev(parse_expr(t))))
        return out

    # -- entry ----------------------------------------------------------------------------------
    def generate(self):
        env = dict(self.module_consts)
        path = []
        for arg, decl in self.contract["args"].items():
            if decl[0] == "opt":
                # optional argument (None or a value of the inner kind): a boolean flag `<arg> is None` plus an unconstrained inner value; only
                # `<arg> is None` / `<arg> is not None` may look at the flag (the code must not use the value on paths where the flag is set - not checked)
                env[arg] = self.declare(arg, decl[1], path)
                env[arg + "__isnone"] = z3.Bool(arg + "_isnone")
                continue
            env[arg] = self.declare(arg, decl, path)
            if decl[0] == "arr2":
                for dim, sname in zip(env[arg].shape, decl[1]):
                    if isinstance(sname, str):
                        env[sname] = dim
        defaults = self.contract.get("defaults", {})
        for k, v in defaults.items():
            env.setdefault(k, z3.IntVal(v))
        self.entry_env = dict(env)
        pre = self.assume_all(self.contract.get("requires", []), env)
        path = path + pre
        # vacuity guard: the precondition is satisfiable
        self.emit("pre-sat", path, z3.BoolVal(True), self.fd.lineno, expect_sat=True)
        for e, p in self.exec_block(self.fd.body, env, path):
            # fell off the end: returns None
            self.on_return(None, e, p, self.fd.end_lineno)
        return self.obligations

    def declare(self, name, decl, path):
        v = self._declare(name, decl, path)
        if BOUNDED["B"] is not None:
            cap = BOUNDED["B"] + 2
            if isinstance(v, Arr1):
                BOUNDED["side"].append(v.length <= cap)
            if isinstance(v, Arr2):
                BOUNDED["side"].extend([as_int(d) <= cap for d in v.shape])
            if z3.is_expr(v) and z3.is_int(v):
                BOUNDED["side"].extend([v >= -2, v <= cap])
        return v

    def _declare(self, name, decl, path):
        kind = decl[0]
        if kind == "int":
            return z3.Int(name)
        if kind == "arr1":
            a = z3.Const(name, A1)
            n = z3.Int("len_" + name)
            path.append(n >= 0)
            return Arr1(lambda i, a=a: z3.Select(a, i), n)
        if kind == "arr2":
            a = z3.Const(name, A2)
            shape = []
            for k, s in enumerate(decl[1]):
                if isinstance(s, int):
                    shape.append(z3.IntVal(s))
                else:
                    v = z3.Int(s)
                    path.append(v >= 0)
                    shape.append(v)
            return Arr2(a, tuple(shape))
        if kind == "pairdict":
            return PairDict(z3.Const(name + "_has", AB), z3.Const(name + "_val", A2))
        if kind == "rel":
            n = z3.Int("len_" + name)
            path.append(n >= 0)
            return TripleRel(z3.Const(name + "_rel", ABB), n)
        if kind == "tuple":
            return tuple(z3.Int("%s_%d" % (name, i)) for i in range(decl[1]))
        if kind == "intlist":
            return IntSet(z3.Const(name + "_set", AS))
        raise Unsupported("argument kind %s" % kind)

    # -- statements -----------------------------------------------------------------------------
    def exec_block(self, stmts, env, path):
        """Executes statements; forks are handled by recursion: returns list of (env, path) continuations."""
        states = [(env, path)]
        for st in stmts:
            nxt = []
            for e, p in states:
                if e.get("__continue__") or e.get("__break__"):
                    nxt.append((e, p))          # this path left the loop body early
                    continue
                nxt.extend(self.exec_stmt(st, e, p))
            states = nxt
            if not states:
                break
        return states

    def exec_stmt(self, st, env, path):
        # `self.curpath` is the path condition extended by assumptions gathered while evaluating expressions of this statement
        # (callee postconditions, "callee did not raise")
        self.curpath = list(path)
        if isinstance(st, ast.Expr):
            if isinstance(st.value, ast.Constant):
                return [(env, path)]
            if (isinstance(st.value, ast.Call) and isinstance(st.value.func, ast.Attribute) and st.value.func.attr in ("add", "remove", "discard")
                    and isinstance(st.value.func.value, ast.Name) and isinstance(env.get(st.value.func.value.id), IntSet)):
                cur = env[st.value.func.value.id]
                x = as_int(ExprEval(env, self).ev(st.value.args[0]))
                if st.value.func.attr == "remove":
                    self.emit("raises[KeyError in set.remove]", self.curpath, cur.member(x), st.lineno)
                env = dict(env)
                env[st.value.func.value.id] = IntSet(z3.Store(cur.has, x, z3.BoolVal(st.value.func.attr == "add")))
                return [(env, self.curpath)]
            if isinstance(st.value, ast.Call) and isinstance(st.value.func, ast.Attribute) and st.value.func.attr == "append":
                lst = ExprEval(env, self).ev(st.value.func.value)
                item = ExprEval(env, self).ev(st.value.args[0])
                if isinstance(lst, RelRow) and isinstance(item, tuple) and len(item) == 2 and isinstance(st.value.func.value, ast.Subscript) and isinstance(st.value.func.value.value, ast.Name):
                    rel, d = lst.rel, as_int(lst.d)
                    self.bounds(d, rel.length, self.curpath, st.lineno, st.value.func.value.value.id)
                    a, b = as_int(item[0]), as_int(item[1])
                    row = z3.Select(rel.has, d)
                    new = z3.Store(rel.has, d, z3.Store(row, a, z3.Store(z3.Select(row, a), b, z3.BoolVal(True))))
                    env = dict(env)
                    env[st.value.func.value.value.id] = TripleRel(new, rel.length)
                    return [(env, self.curpath)]
                if isinstance(lst, IntSet) and not isinstance(item, tuple) and isinstance(st.value.func.value, ast.Name):
                    # list of ints declared as "intlist": abstracted to the set of its entries (order and multiplicity dropped)
                    env = dict(env)
                    env[st.value.func.value.id] = IntSet(z3.Store(lst.has, as_int(item), z3.BoolVal(True)))
                    return [(env, self.curpath)]
                if not isinstance(lst, PairList) or not (isinstance(item, tuple) and len(item) == 2):
                    raise Unsupported("append on this container")
                env = dict(env)
                env[st.value.func.value.id] = PairList(z3.Store(lst.a0, lst.length, as_int(item[0])), z3.Store(lst.a1, lst.length, as_int(item[1])), lst.length + 1)
                return [(env, self.curpath)]
            raise Unsupported("expression statement")
        if isinstance(st, ast.Assign):
            if len(st.targets) != 1:
                raise Unsupported("chained assignment")
            val = self.eval_rhs(st.value, env, path)
            return [(self.assign(st.targets[0], val, env, self.curpath, st.lineno), self.curpath)]
        if isinstance(st, ast.AugAssign):
            cur = ExprEval(env, self).ev(st.target)
            rhs = ExprEval(env, self).ev(st.value)
            op = {ast.Add: lambda a, b: a + b, ast.Sub: lambda a, b: a - b, ast.Mult: lambda a, b: a * b}.get(type(st.op))
            if op is None:
                raise Unsupported("augmented operator")
            return [(self.assign(st.target, op(as_int(cur), as_int(rhs)), env, self.curpath, st.lineno), self.curpath)]
        if isinstance(st, ast.If):
            c = as_bool(ExprEval(env, self).ev(st.test))
            base = self.curpath
            self.emit("cover[then]", base + [c], z3.BoolVal(True), st.lineno, expect_sat=True)
            then_states = self.exec_block(st.body, dict(env), base + [c])
            else_states = self.exec_block(st.orelse, dict(env), base + [z3.Not(c)]) if st.orelse else [(dict(env), base + [z3.Not(c)])]
            if self.opaque_ok and len(then_states) == 1 and len(else_states) == 1:
                # block-extraction mode: join the two branches into one state (values become if-then-else terms) to avoid path explosion
                merged = self.merge_states(c, base, then_states[0], else_states[0])
                if merged is not None:
                    return [merged]
            return then_states + else_states
        if isinstance(st, ast.Return):
            val = ExprEval(env, self).ev(st.value) if st.value is not None else None
            self.on_return(val, env, self.curpath, st.lineno)
            return []
        if isinstance(st, ast.Raise):
            self.on_raise(st, env, self.curpath)
            return []
        if isinstance(st, ast.For):
            return self.exec_for(st, env, path)
        if isinstance(st, ast.Pass):
            return [(env, path)]
        if isinstance(st, (ast.Continue, ast.Break)):
            if not getattr(self, "in_unrolled", 0):
                raise Unsupported("continue / break outside an unrolled loop")
            env = dict(env)
            env["__continue__" if isinstance(st, ast.Continue) else "__break__"] = True
            return [(env, path)]
        raise Unsupported("statement %s" % type(st).__name__)

    def merge_states(self, c, base, st_then, st_else):
        (e1, p1), (e2, p2) = st_then, st_else
        for flag in ("__continue__", "__break__"):
            if bool(e1.get(flag)) != bool(e2.get(flag)):
                return None
        n = len(base)
        if p1[:n] != base or p2[:n] != base:
            return None
        path = list(base) + [z3.Implies(c, x) for x in p1[n + 1:]] + [z3.Implies(z3.Not(c), x) for x in p2[n + 1:]]

        def join(a, b):
            if a is b:
                return a
            if isinstance(a, Opaque) or isinstance(b, Opaque):
                return Opaque("join")
            if isinstance(a, Arr2) and isinstance(b, Arr2):
                return Arr2(z3.If(c, a.term, b.term), a.shape)
            if isinstance(a, IntSet) and isinstance(b, IntSet):
                return IntSet(z3.If(c, a.has, b.has))
            if isinstance(a, FilterSeq) or isinstance(b, FilterSeq):
                raise Unsupported("join of filtered lists")
            if isinstance(a, Arr1) and isinstance(b, Arr1):
                return Arr1(lambda i, a=a, b=b: z3.If(c, as_int(a.get(i)), as_int(b.get(i))), z3.If(c, a.length, b.length))
            if isinstance(a, Small) and isinstance(b, Small) and a.shape == b.shape:
                out = Small(a.shape)
                if len(a.shape) == 1:
                    out.data = [join(x, y) for x, y in zip(a.data, b.data)]
                else:
                    out.data = [[join(x, y) for x, y in zip(r, q)] for r, q in zip(a.data, b.data)]
                return out
            if isinstance(a, tuple) and isinstance(b, tuple) and len(a) == len(b):
                return tuple(join(x, y) for x, y in zip(a, b))
            if a is None or b is None:
                return a if b is None else b
            if isinstance(a, (PairDict, PairList)) or isinstance(b, (PairDict, PairList)):
                raise Unsupported("join of containers")
            if isinstance(a, bool) or isinstance(b, bool) or (z3.is_expr(a) and z3.is_bool(a)) or (z3.is_expr(b) and z3.is_bool(b)):
                if (isinstance(a, bool) or z3.is_bool(a)) and (isinstance(b, bool) or z3.is_bool(b)):
                    return z3.If(c, as_bool(a), as_bool(b))
            return z3.If(c, as_int(a), as_int(b))

        env = {}
        try:
            for k in set(e1) | set(e2):
                if k in ("__continue__", "__break__"):
                    env[k] = e1.get(k)
                    continue
                if k in e1 and k in e2:
                    env[k] = join(e1[k], e2[k])
                else:
                    env[k] = e1.get(k, e2.get(k))
        except Unsupported:
            return None
        return env, path

    def eval_rhs(self, node, env, path):
        # allocation calls
        if isinstance(node, ast.Call) and isinstance(node.func, ast.Attribute) and node.func.attr in ("empty", "zeros") and isinstance(node.func.value, ast.Name):
            shape = node.args[0]
            dims = shape.elts if isinstance(shape, ast.Tuple) else [shape]
            vals = [z3.simplify(as_int(ExprEval(env, self).ev(d))) for d in dims]
            if all(z3.is_int_value(v) for v in vals):
                s = Small(tuple(v.as_long() for v in vals))
                if node.func.attr == "zeros":
                    if len(s.shape) == 1:
                        s.data = [z3.IntVal(0)] * s.shape[0]
                    else:
                        s.data = [[z3.IntVal(0)] * s.shape[1] for _ in range(s.shape[0])]
                return s
            if len(vals) == 2:
                if node.func.attr == "zeros":
                    return Arr2(z3.K(I, z3.K(I, z3.IntVal(0))), tuple(vals))
                return Arr2(fresh("empty", A2), tuple(vals))
            if len(vals) == 1:
                if node.func.attr == "zeros":
                    return Arr1(lambda i: z3.IntVal(0), vals[0])
                a = fresh("empty1", A1)
                return Arr1(lambda i, a=a: z3.Select(a, i), vals[0])
            raise Unsupported("allocation of this shape")
        if isinstance(node, ast.List) and not node.elts:
            return PairList(fresh("lst0", A1), fresh("lst1", A1), z3.IntVal(0))
        if (isinstance(node, ast.ListComp) and isinstance(node.elt, ast.List) and not node.elt.elts and len(node.generators) == 1
                and isinstance(node.generators[0].iter, ast.Call) and getattr(node.generators[0].iter.func, "id", None) == "range" and not node.generators[0].ifs):
            n = as_int(ExprEval(env, self).ev(node.generators[0].iter.args[0]))
            return TripleRel(z3.K(I, z3.K(I, z3.K(I, z3.BoolVal(False)))), n)
        return ExprEval(env, self).ev(node)

    def assign(self, target, val, env, path, line):
        env = dict(env)
        if isinstance(target, ast.Name):
            env[target.id] = val
            return env
        if isinstance(target, ast.Tuple):
            if not isinstance(val, tuple) or len(val) != len(target.elts):
                raise Unsupported("tuple unpacking of a non-tuple")
            for t, v in zip(target.elts, val):
                env = self.assign(t, v, env, path, line)
            return env
        if isinstance(target, ast.Subscript) and isinstance(target.value, ast.Name):
            base = env[target.value.id]
            ee = ExprEval(env, self)
            idx = ee.index_list(target)
            if isinstance(base, TripleRel):
                if not isinstance(val, RelRow):
                    raise Unsupported("store of a non-list into a list of lists")
                d = as_int(ee.ev(idx[0]))
                self.bounds(d, base.length, path, line, target.value.id)
                env[target.value.id] = TripleRel(z3.Store(base.has, d, z3.Select(val.rel.has, as_int(val.d))), base.length)
                return env
            if isinstance(base, PairDict):
                key = ee.ev(idx[0])
                k0, k1 = as_int(key[0]), as_int(key[1])
                env[target.value.id] = PairDict(z3.Store(base.has, k0, z3.Store(z3.Select(base.has, k0), k1, z3.BoolVal(True))),
                                                z3.Store(base.val, k0, z3.Store(z3.Select(base.val, k0), k1, as_int(val))))
                return env
            if isinstance(base, Small):
                new = base.copy()
                ks = []
                for s in idx:
                    if isinstance(s, ast.Slice):
                        ks.append(("slice", s))
                    else:
                        v = z3.simplify(as_int(ee.ev(s)))
                        if not z3.is_int_value(v):
                            raise Unsupported("symbolic index store into a literal-shape array")
                        ks.append(v.as_long())
                if len(base.shape) == 1:
                    new.data[ks[0]] = as_int(val)
                elif isinstance(ks[0], tuple) and not isinstance(ks[1], tuple):
                    if not isinstance(val, tuple) or len(val) != base.shape[0]:
                        raise Unsupported("column store of wrong length")
                    for r in range(base.shape[0]):
                        new.data[r][ks[1]] = as_int(val[r])
                else:
                    new.data[ks[0]][ks[1]] = as_int(val)
                env[target.value.id] = new
                return env
            if isinstance(base, Arr1) and len(idx) == 1 and isinstance(idx[0], ast.Slice) and isinstance(val, Arr1) and idx[0].step is None:
                # a[lo:hi] = b  (numpy raises unless 0 <= lo <= hi <= len(a) ... and len(b) == hi - lo; Python's silent clipping is excluded by the obligation)
                lo = as_int(ee.ev(idx[0].lower)) if idx[0].lower is not None else z3.IntVal(0)
                hi = as_int(ee.ev(idx[0].upper)) if idx[0].upper is not None else base.length
                if not self.contract.get("assume_slice_store_in_range"):
                    self.emit("slice-store-bounds[%s]" % target.value.id, path, z3.And(0 <= lo, lo <= hi, hi <= base.length), line)
                else:
                    path.extend([0 <= lo, lo <= hi, hi <= base.length])
                self.emit("slice-store-length[%s]" % target.value.id, path, val.length == hi - lo, line)
                # the updated array is a fresh symbol characterised in both index conventions (a'[q] == b[q - lo] and a'[lo + w] == b[w]): the second
                # form lets the solver reach the position lo + w from a fact about b[w]
                a2, q, w = fresh(target.value.id, A1), fresh("q"), fresh("w")
                path.extend([
                    z3.ForAll([q], z3.Implies(z3.And(lo <= q, q < hi), z3.Select(a2, q) == as_int(val.get(q - lo)))),
                    z3.ForAll([w], z3.Implies(z3.And(0 <= w, w < val.length), z3.Select(a2, lo + w) == as_int(val.get(w)))),
                    z3.ForAll([q], z3.Implies(z3.Or(q < lo, q >= hi), z3.Select(a2, q) == as_int(base.get(q))))])
                env[target.value.id] = Arr1(lambda t, a2=a2: z3.Select(a2, t), base.length)
                return env
            if isinstance(base, Arr1) and len(idx) == 1 and not isinstance(idx[0], ast.Slice) and not isinstance(val, (Arr1, tuple, Small)):
                ixs = ee.ev(idx[0])
                if isinstance(ixs, tuple):
                    ixs = Arr1(lambda i, t=ixs: _tuple_get(t, i), z3.IntVal(len(ixs)))
                if isinstance(ixs, Arr1):
                    # a[ix] = scalar: every listed position gets the value, all others keep theirs
                    qi, qj, q = fresh("i"), fresh("j"), fresh("q")
                    v = as_int(val)
                    self.emit("fancy-store-bounds[%s]" % target.value.id, path,
                              z3.ForAll([qi], z3.Implies(z3.And(0 <= qi, qi < ixs.length), z3.And(0 <= as_int(ixs.get(qi)), as_int(ixs.get(qi)) < base.length))), line)
                    a2 = fresh(target.value.id, A1)
                    path.extend([
                        z3.ForAll([qi], z3.Implies(z3.And(0 <= qi, qi < ixs.length), z3.Select(a2, as_int(ixs.get(qi))) == v)),
                        z3.ForAll([q], z3.Or(z3.Select(a2, q) == as_int(base.get(q)), z3.Exists([qj], z3.And(0 <= qj, qj < ixs.length, as_int(ixs.get(qj)) == q))))])
                    env[target.value.id] = Arr1(lambda t, a2=a2: z3.Select(a2, t), base.length)
                    return env
            if isinstance(base, Arr1) and len(idx) == 1 and not isinstance(idx[0], ast.Slice) and isinstance(val, Arr1):
                ix = ee.ev(idx[0])
                if not isinstance(ix, Arr1):
                    raise Unsupported("array-valued store with a scalar index")
                # a[ix] = b with index array ix: numpy requires equal lengths and indices in range (obligations); for repeated indices the last store wins, which
                # the characterisation below does not model -> distinctness of the indices is an obligation as well
                qi, qj, q = fresh("i"), fresh("j"), fresh("q")
                self.emit("fancy-store-length[%s]" % target.value.id, path, ix.length == val.length, line)
                self.emit("fancy-store-bounds[%s]" % target.value.id, path, z3.ForAll([qi], z3.Implies(z3.And(0 <= qi, qi < ix.length), z3.And(0 <= as_int(ix.get(qi)), as_int(ix.get(qi)) < base.length))), line)
                self.emit("fancy-store-distinct[%s]" % target.value.id, path,
                          z3.ForAll([qi, qj], z3.Implies(z3.And(0 <= qi, qi < qj, qj < ix.length), as_int(ix.get(qi)) != as_int(ix.get(qj)))), line)
                a2 = fresh(target.value.id, A1)
                path.extend([
                    z3.ForAll([qi], z3.Implies(z3.And(0 <= qi, qi < ix.length), z3.Select(a2, as_int(ix.get(qi))) == as_int(val.get(qi)))),
                    z3.ForAll([q], z3.Or(z3.Select(a2, q) == as_int(base.get(q)), z3.Exists([qj], z3.And(0 <= qj, qj < ix.length, as_int(ix.get(qj)) == q))))])
                env[target.value.id] = Arr1(lambda t, a2=a2: z3.Select(a2, t), base.length)
                return env
            if isinstance(base, Arr1):
                if len(idx) != 1 or isinstance(idx[0], ast.Slice):
                    raise Unsupported("slice store into a 1-d array")
                i = as_int(ee.ev(idx[0]))
                self.bounds(i, base.length, path, line, target.value.id)
                v = as_int(val)
                env[target.value.id] = Arr1(lambda q, b=base, i=i, v=v: z3.If(q == i, v, b.get(q)), base.length)
                return env
            if isinstance(base, Arr2):
                s0, s1 = idx
                if isinstance(s1, ast.Slice) and not isinstance(s0, ast.Slice) and s1.lower is None and s1.upper is None:
                    row = tuple(val.data) if isinstance(val, Small) and len(val.shape) == 1 else val
                    if not isinstance(row, tuple):
                        raise Unsupported("row store of a non-tuple")
                    i = as_int(ee.ev(s0))
                    self.bounds(i, base.shape[0], path, line, target.value.id)
                    new = base
                    for c, v in enumerate(row):
                        new = new.set(i, z3.IntVal(c), as_int(v))
                    env[target.value.id] = new
                    return env
                if isinstance(s0, ast.Slice):
                    lo = 0
                    if s0.lower is not None:
                        lv = z3.simplify(as_int(ee.ev(s0.lower)))
                        if not z3.is_int_value(lv):
                            raise Unsupported("symbolic slice bound in a store")
                        lo = lv.as_long()
                    if s0.upper is not None or isinstance(s1, ast.Slice):
                        raise Unsupported("general slice store")
                    if not isinstance(val, tuple):
                        raise Unsupported("column store of a non-tuple")
                    nrows = z3.simplify(as_int(base.shape[0]))
                    if z3.is_int_value(nrows) and nrows.as_long() - lo != len(val):
                        raise Unsupported("column store length mismatch")
                    j = as_int(ee.ev(s1))
                    self.bounds(j, base.shape[1], path, line, target.value.id)
                    new = base
                    for r, v in enumerate(val):
                        new = new.set(z3.IntVal(lo + r), j, as_int(v))
                    env[target.value.id] = new
                    return env
                i, j = as_int(ee.ev(s0)), as_int(ee.ev(s1))
                self.bounds(i, base.shape[0], path, line, target.value.id)
                self.bounds(j, base.shape[1], path, line, target.value.id)
                env[target.value.id] = base.set(i, j, as_int(val))
                return env
            raise Unsupported("store into %s" % type(base).__name__)
        raise Unsupported("assignment target")

    def bounds(self, idx, size, path, line, what):
        self.emit("bounds[%s]" % what, path, z3.And(idx >= 0, idx < as_int(size)), line)

    # -- loops ----------------------------------------------------------------------------------
    def exec_for(self, st, env, path):
        self.loop_count += 1
        ordinal = self.loop_count
        spec = self.contract.get("loops", {}).get(ordinal)
        it = st.iter
        self.curpath = list(path)
        ee = ExprEval(env, self)
        # iteration domain
        if isinstance(it, ast.Call) and isinstance(it.func, ast.Name) and it.func.id == "range" and len(it.args) == 1:
            n = as_int(ee.ev(it.args[0]))
            mode = "range"
            arr = None
        elif isinstance(it, ast.Call) and isinstance(it.func, ast.Name) and it.func.id == "enumerate":
            arr = ee.ev(it.args[0])
            if isinstance(arr, TripleRel):
                rel = arr
                arr = Arr1(lambda i, rel=rel: RelRow(rel, i), rel.length)
            if not isinstance(arr, Arr1):
                raise Unsupported("enumerate over a non-array")
            n = arr.length
            mode = "enumerate"
        else:
            itv = ee.ev(it)
            if isinstance(itv, tuple):
                # literal-length sequence: unroll
                states = [(env, path)]
                for item in itv:
                    nxt = []
                    for e, p in states:
                        e = self.assign(st.target, item, e, p, st.lineno)
                        nxt.extend(self.exec_block(st.body, e, p))
                    states = nxt
                return states
            if (isinstance(itv, RelRow) and isinstance(st.target, ast.Tuple) and len(st.target.elts) == 2 and len(st.body) == 1 and isinstance(st.body[0], ast.Expr)
                    and isinstance(st.body[0].value, ast.Call) and isinstance(st.body[0].value.func, ast.Attribute) and st.body[0].value.func.attr == "add"
                    and isinstance(st.body[0].value.func.value, ast.Name) and isinstance(env.get(st.body[0].value.func.value.id), IntSet)
                    and len(st.body[0].value.args) == 1 and isinstance(st.body[0].value.args[0], ast.Name)
                    and st.body[0].value.args[0].id in [getattr(t, "id", None) for t in st.target.elts]):
                # `for a, b in rel[d]: S.add(a)`  ==>  S := S u {a | exists b: (a, b) in rel[d]}   (exact summary of the loop; no invariant needed)
                sname = st.body[0].value.func.value.id
                first = st.body[0].value.args[0].id == getattr(st.target.elts[0], "id", None)
                cur = env[sname]
                x, y = fresh("sx"), fresh("sy")
                mem = itv.rel.member(as_int(itv.d), x, y) if first else itv.rel.member(as_int(itv.d), y, x)
                new = z3.Lambda([x], z3.Or(z3.Select(cur.has, x), z3.Exists([y], mem)))
                env = dict(env)
                env[sname] = IntSet(new)
                return [(env, path)]
            if isinstance(itv, FilterSeq):
                # for x in [y for y in base if cond(y)]  ==  for k in range(len(base)): x = base[k]; if cond(x): body      (cut at the invariant, index _k)
                if spec is None:
                    raise Unsupported("loop %d of %s (over a filtered list) has no invariant" % (ordinal, self.qual))
                return self.cut_loop(st, env, self.curpath, spec, itv.base.length, "filter", itv)
            if isinstance(itv, Arr1) and spec is not None:
                return self.cut_loop(st, env, self.curpath, spec, itv.length, "array", itv)     # curpath: facts gathered while evaluating the iterable (np.flatnonzero ...)
            if isinstance(itv, Arr1) and self.opaque_ok:
                # loop over an array without an invariant (block mode): everything its body may assign becomes unconstrained
                itv = Opaque("loop without invariant")
            if isinstance(itv, Opaque) and self.opaque_ok:
                # loop over an unknown sequence: everything its body may assign becomes unconstrained (covers zero iterations as well)
                env = dict(env)
                for name in sorted(self.assigned_names(st.body) | self.target_names(st.target)):
                    if name in env:
                        env[name] = fresh_like(name, env[name])
                self.opaque_log.append("loop over " + ast.unparse(it)[:60])
                return [(env, path)]
            raise Unsupported("for over this iterable")
        nv = z3.simplify(n)
        if spec is None:
            if z3.is_int_value(nv) and nv.as_long() <= 8 and mode == "range":
                # complete unrolling (continue / break are followed per path)
                states = [(env, path)]
                self.in_unrolled = getattr(self, "in_unrolled", 0) + 1
                try:
                    for k in range(nv.as_long()):
                        nxt = []
                        for e, p in states:
                            if e.get("__break__"):
                                nxt.append((e, p))
                                continue
                            e = self.assign(st.target, z3.IntVal(k), e, p, st.lineno)
                            for e2, p2 in self.exec_block(st.body, e, p):
                                if e2.get("__continue__"):
                                    e2 = dict(e2)
                                    del e2["__continue__"]
                                nxt.append((e2, p2))
                        states = nxt
                finally:
                    self.in_unrolled -= 1
                out = []
                for e, p in states:
                    if e.get("__break__"):
                        e = dict(e)
                        del e["__break__"]
                    out.append((e, p))
                return out
            raise Unsupported("loop %d of %s has no invariant" % (ordinal, self.qual))
        return self.cut_loop(st, env, path, spec, n, mode, arr)

    def cut_loop(self, st, env, path, spec, n, mode, arr):
        # cut at the invariant
        assigned = sorted(self.assigned_names(st.body) - self.target_names(st.target))
        k = fresh("k")
        inv = spec["invariant"]

        view = arr.base if mode == "filter" else (arr if mode == "array" else None)
        off = view.lo if (view is not None and getattr(view, "parent", None) is not None) else z3.IntVal(0)

        def bind(e, kv):
            e = dict(e)
            e["_k"] = kv
            e["_ka"] = kv + off        # index into the parent array when the loop runs over a slice a[lo:hi] (otherwise == _k)
            if mode in ("array", "enumerate") and isinstance(arr, Arr1):
                e["_iter"] = arr       # the sequence the loop runs over (e.g. np.flatnonzero(...)), for invariants about the entries visited so far
            e["_n"] = n
            for name, v in self.entry_env.items():
                e.setdefault("old_" + name, v)      # values at function entry, as in `ensures`
            return e

        # entry
        self.emit_all("inv-init", path, inv, bind(env, z3.IntVal(0)), st.lineno)
        # arbitrary iteration
        env2 = dict(env)
        for name in assigned:
            if name in env2:
                env2[name] = fresh_like(name, env2[name])
        p2 = path + [k >= 0, k < n] + self.assume_all(inv, bind(env2, k))
        if mode == "range":
            env_body = self.assign(st.target, k, env2, p2, st.lineno)
        elif mode == "filter":
            item = as_int(arr.base.get(k))
            passes = arr.cond(item)
            # the element is filtered out: the state is unchanged and the invariant must hold for _k + 1
            self.emit_all("inv-step[filtered-out]", p2 + [z3.Not(passes)], inv, bind(env2, k + 1), st.lineno)
            p2 = p2 + [passes]
            env_body = self.assign(st.target, item, env2, p2, st.lineno)
        elif mode == "array":
            env_body = self.assign(st.target, as_int(arr.get(k)), env2, p2, st.lineno)
        else:
            env_body = self.assign(st.target, (k, arr.get(k)), env2, p2, st.lineno)
        self.emit("cover[loop-body]", p2, z3.BoolVal(True), st.lineno, expect_sat=True)
        for e, p in self.exec_block(st.body, env_body, p2):
            self.emit_all("inv-step", p, inv, bind(e, k + 1), st.lineno)
        # exit
        env3 = dict(env)
        for name in assigned:
            if name in env3:
                env3[name] = fresh_like(name, env3[name])
        p3 = path + self.assume_all(inv, bind(env3, n))
        # Python leaves the loop variable bound; not modelled (unused after the loops under contract)
        return [(env3, p3)]

    def assigned_names(self, stmts):
        out = set()
        for st in stmts:
            for node in ast.walk(st):
                if isinstance(node, (ast.Assign, ast.AugAssign)):
                    targets = node.targets if isinstance(node, ast.Assign) else [node.target]
                    for t in targets:
                        out |= self.target_names(t)
                if isinstance(node, ast.For):
                    out |= self.target_names(node.target)
                if isinstance(node, ast.Call) and isinstance(node.func, ast.Attribute) and node.func.attr == "append" and isinstance(node.func.value, ast.Name):
                    out.add(node.func.value.id)
                if (isinstance(node, ast.Call) and isinstance(node.func, ast.Attribute) and node.func.attr == "append" and isinstance(node.func.value, ast.Subscript)
                        and isinstance(node.func.value.value, ast.Name)):
                    out.add(node.func.value.value.id)
        return out

    def target_names(self, t):
        if isinstance(t, ast.Name):
            return {t.id}
        if isinstance(t, ast.Tuple):
            s = set()
            for e in t.elts:
                s |= self.target_names(e)
            return s
        if isinstance(t, ast.Subscript) and isinstance(t.value, ast.Name):
            return {t.value.id}
        return set()

    # -- calls ----------------------------------------------------------------------------------
    def call(self, name, node, ee):
        c = self.contracts.get(name)
        if c is None:
            raise Unsupported("call to %s (no contract)" % name)
        args = [ee.ev(a) for a in node.args]
        params = list(c["args"])
        env = {}
        for p, a in zip(params, args):
            env[p] = a
            decl = c["args"][p]
            if decl[0] == "arr2" and isinstance(a, Arr2):
                for dim, sname in zip(a.shape, decl[1]):
                    if isinstance(sname, str):
                        env[sname] = as_int(dim)
                    else:
                        self.emit("call-pre[%s: shape of %s]" % (name, p), self.curpath, as_int(dim) == sname, node.lineno)
        for p in params[len(args):]:
            env[p] = z3.IntVal(c.get("defaults", {})[p])
        for t in c.get("requires", []):
            self.emit("call-pre[%s: %s]" % (name, t[:40]), self.curpath, as_bool(ExprEval(env, None).ev(parse_expr(t))), node.lineno)
        res = self.fresh_result(c)
        if c.get("raises"):
            # the callee raises exactly under these conditions; the exception propagates (no handlers in the subset)
            for exc, t in c["raises"]:
                cond = as_bool(ExprEval(env, None).ev(parse_expr(t)))
                allowed = [tt for e, tt in self.contract.get("raises", []) if e == exc]
                goal = z3.Or(*[as_bool(ExprEval(dict(self.entry_env), None).ev(parse_expr(tt))) for tt in allowed]) if allowed else z3.BoolVal(False)
                self.emit("raises[%s from %s propagates only when allowed]" % (exc, name), self.curpath + [cond], goal, node.lineno)
                self.curpath = self.curpath + [z3.Not(cond)]
        renv = dict(env, result=res)
        if isinstance(res, tuple):
            for i, r in enumerate(res):
                renv["result_%d" % i] = r
        for t in c.get("ensures", []):
            self.curpath = self.curpath + [as_bool(ExprEval(renv, None).ev(parse_expr(t)))]
        return res

    def fresh_result(self, c):
        r = c.get("result", ("int",))
        if r[0] == "int":
            return fresh("res")
        if r[0] == "tuple":
            return tuple(fresh("res") for _ in range(r[1]))
        if r[0] == "small":
            s = Small(tuple(r[1]))
            s.data = [[fresh("res") for _ in range(r[1][1])] for _ in range(r[1][0])]
            return s
        raise Unsupported("result kind")

    # -- exits ----------------------------------------------------------------------------------
    def on_return(self, val, env, path, line):
        extra = {"result": val}
        if isinstance(val, tuple):
            for i, v in enumerate(val):
                extra["result_%d" % i] = v
        old = {"old_" + k: v for k, v in self.entry_env.items()}
        # a normal return is only allowed where the contract does not demand an exception
        for exc, t in self.contract.get("raises", []):
            cond = as_bool(ExprEval(dict(self.entry_env), None).ev(parse_expr(t)))
            self.emit("raises[returns although %s required]" % exc, path, z3.Not(cond), line)
        self.emit_all("post", path, self.contract.get("ensures", []), dict(env, **old), line, extra)

    def on_raise(self, st, env, path):
        exc = st.exc.func.id if isinstance(st.exc, ast.Call) else (st.exc.id if isinstance(st.exc, ast.Name) else "?")
        allowed = [t for e, t in self.contract.get("raises", []) if e == exc]
        if not allowed:
            self.emit("raises[unexpected %s]" % exc, path, z3.BoolVal(False), st.lineno)
            return
        cond = z3.Or(*[as_bool(ExprEval(dict(self.entry_env), None).ev(parse_expr(t))) for t in allowed])
        self.emit("raises[%s only when allowed]" % exc, path, cond, st.lineno)


# ---------------------------------------------------------------------------------------------
# discharging
# ---------------------------------------------------------------------------------------------


def _has_quantifier(t):
    seen, todo = set(), [t]
    while todo:
        x = todo.pop()
        if x.get_id() in seen:
            continue
        seen.add(x.get_id())
        if z3.is_quantifier(x):
            return True
        todo.extend(x.children())
    return False


def discharge(ob, timeout_ms=10000):
    """Returns (verdict, backend, seconds, model-or-None).
    verdict: proved / refuted / unknown; for expect_sat (vacuity / cover) obligations: proved (sat), vacuous (unsat), cover-unknown.
    All solver calls run out of process with a hard kill (vlib/smt.py)."""
    from vlib import smt

    t0 = time.time()
    s = z3.Solver()
    for a in ob.assumptions:
        s.add(a)
    if ob.expect_sat:
        r, _ = smt.z3_check(s, min(timeout_ms, 3000) / 1000.0)
        dt = time.time() - t0
        if r == "sat":
            return "proved", "z3", dt, None
        if r == "unsat":
            return "vacuous", "z3", dt, None
        return "cover-unknown", "z3", dt, None
    s.add(z3.Not(ob.goal))
    r, model = smt.z3_check(s, timeout_ms / 1000.0, model=True)
    dt = time.time() - t0
    if r == "unsat":
        return "proved", "z3", dt, None
    if r == "sat":
        return "refuted", "z3", dt, model
    # relevance filtering: hypotheses may be dropped soundly (a goal proved from fewer hypotheses holds with all of them); the path condition is in program
    # order, so the most recent hypotheses (loop invariant at _k, guards, callee postconditions) come last.  Only `unsat` is accepted from a subset.
    n = len(ob.assumptions)
    ground = [a for a in ob.assumptions if not _has_quantifier(a)]
    for m in (4, 8, 12, 16):
        if m >= n:
            break
        recent = ob.assumptions[-m:]
        sub = z3.Solver()
        for a in ground + [a for a in recent if _has_quantifier(a)]:
            sub.add(a)
        sub.add(z3.Not(ob.goal))
        r, _ = smt.z3_check(sub, min(timeout_ms, 5000) / 1000.0)
        if r == "unsat":
            return "proved", "z3(ground + last %d of %d hypotheses)" % (m, n), time.time() - t0, None
    # second opinion: cvc5 (default, then enumerative instantiation); generous wall-clock budget: these queries take 2-20 s on an idle machine and
    # the budget must not flip the verdict when all cores are busy
    for opts in ([], ["--enum-inst"], ["--full-saturate-quant"]):
        r, _ = smt.cvc5_check(s, 8 * timeout_ms / 1000.0, opts)
        if r == "unsat":
            return "proved", "cvc5" + ("".join(opts)), time.time() - t0, None
        if r == "sat":
            return "refuted", "cvc5", time.time() - t0, None
    # last resort, sized for a fully loaded machine (these queries need 0.1-20 s on an idle one): z3 again with six times the budget, then enumerative
    # instantiation with the long budget
    r, model = smt.z3_check(s, 6 * timeout_ms / 1000.0, model=True)
    if r == "unsat":
        return "proved", "z3(long budget)", time.time() - t0, None
    if r == "sat":
        return "refuted", "z3", time.time() - t0, model
    r, _ = smt.cvc5_check(s, 30 * timeout_ms / 1000.0, ["--enum-inst"])
    if r == "unsat":
        return "proved", "cvc5--enum-inst(long budget)", time.time() - t0, None
    if r == "sat":
        return "refuted", "cvc5", time.time() - t0, None
    return "unknown", "z3+cvc5", time.time() - t0, None
