"""Native evaluation of contract expressions on concrete values (replay, witnesses, bounded contract checks)."""

import numpy as np


def forall(lo, hi, f):
    return all(f(i) for i in range(int(lo), int(hi)))


def exists(lo, hi, f):
    return any(f(i) for i in range(int(lo), int(hi)))


def implies(a, b):
    return (not a) or bool(b)


def iff(a, b):
    return bool(a) == bool(b)


def ncols(a):
    return int(np.shape(a)[1])


def forall_any(f):
    """Native stand-in for an unbounded quantifier: all integer tuples from a small box (-1..8); only used on witness inputs."""
    import inspect
    import itertools

    k = len(inspect.signature(f).parameters)
    return all(f(*t) for t in itertools.product(range(-1, 9), repeat=k))


def evaluate(text, env):
    scope = {"__builtins__": {}, "forall": forall, "exists": exists, "implies": implies, "iff": iff, "len": len, "min": min, "max": max, "ncols": ncols,
             "forall_any": forall_any}
    scope.update(env)
    return bool(eval(text.strip(), scope))


def bind_shapes(contract, args):
    env = dict(args)
    for name, decl in contract["args"].items():
        if decl[0] == "arr2":
            for dim, sname in zip(np.shape(args[name]), decl[1]):
                if isinstance(sname, str):
                    env[sname] = int(dim)
    return env


def check_call(func, contract, args):
    """Run the real function on concrete args and evaluate the contract. Returns (ok, message)."""
    env = bind_shapes(contract, args)
    for t in contract.get("requires", []):
        if not evaluate(t, env):
            return None, "precondition does not hold: %s" % t
    f = getattr(func, "py_func", func)
    call_args = [np.array(args[k]) if isinstance(args[k], (list, np.ndarray)) else args[k] for k in contract["args"]]
    try:
        res = f(*call_args)
    except Exception as e:  # noqa
        for exc, t in contract.get("raises", []):
            if type(e).__name__ == exc:
                if evaluate(t, env):
                    return True, "raised %s as specified" % exc
                return False, "raised %s although the raise condition does not hold: %s" % (exc, t)
        return False, "raised unexpected %s: %s" % (type(e).__name__, e)
    for exc, t in contract.get("raises", []):
        if evaluate(t, env):
            return False, "returned although %s is required: %s" % (exc, t)
    env["result"] = res
    if isinstance(res, tuple):
        for i, r in enumerate(res):
            env["result_%d" % i] = r
    for t in contract.get("ensures", []):
        if not evaluate(t, env):
            return False, "postcondition fails: %s (result %r)" % (t, res if not isinstance(res, np.ndarray) else res.tolist())
    return True, "ok"
