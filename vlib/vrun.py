"""Glue between the V-engine and the obligation framework: generate the verification conditions of a function under its sidecar contract
(re-reading the real source), discharge each obligation in its own pool task, replay refutations natively."""

import importlib
import inspect
import itertools
import textwrap

import numpy as np
import z3

from vlib import vengine as V
from vlib import vnative as VN
from vlib.framework import proved, violated, undecided

_CACHE = {}


def module_consts(modname):
    if modname.endswith("grid.grid"):
        return {"_np": None, "_EDGE_LOCAL": V.Small((3, 2), [[z3.IntVal(0), z3.IntVal(1)], [z3.IntVal(2), z3.IntVal(0)], [z3.IntVal(1), z3.IntVal(2)]])}
    return {"_np": None}


def nested_source(modname, qualname):
    """source text of a function defined inside another one: qualname `outer::inner` (re-read from the real file on every run)"""
    import ast as _ast

    outer, inner = qualname.split("::")
    f = get_function(modname, outer)
    f = getattr(f, "py_func", f)
    f = getattr(f, "__wrapped__", f)
    fd = _ast.parse(textwrap.dedent(inspect.getsource(f))).body[0]
    for st in fd.body:
        if isinstance(st, _ast.FunctionDef) and st.name == inner:
            return _ast.unparse(st) + "\n"
    raise LookupError("no nested function %s in %s" % (inner, outer))


def get_function(modname, qualname):
    if "::" in qualname:
        scope = {"_np": np}
        exec(compile(nested_source(modname, qualname), "<nested %s>" % qualname, "exec"), scope)
        return scope[qualname.split("::")[1]]
    obj = importlib.import_module(modname)
    for part in qualname.split("."):
        obj = getattr(obj, part)
    return obj


def generate(modname, qualname, contracts_mod, source=None):
    key = (modname, qualname, contracts_mod, source)
    if key not in _CACHE:
        contracts = importlib.import_module(contracts_mod).CONTRACTS
        name = qualname.split("::")[-1].split(".")[-1]
        if "::" in qualname and source is None:
            source = nested_source(modname, qualname)
        eng = V.Engine(get_function(modname, qualname), dict(contracts[name], name=name), contracts, module_consts(modname), source=source)
        _CACHE[key] = eng.generate()
    return _CACHE[key]


def count(modname, qualname, contracts_mod):
    return [(o.name, o.kind, o.expect_sat) for o in generate(modname, qualname, contracts_mod)]


def small_inputs(contract, limit=400):
    """Enumerate small concrete argument tuples (for native replay of a refuted function contract)."""
    names = list(contract["args"])
    domains = []
    for n in names:
        d = contract["args"][n]
        if d[0] == "int":
            domains.append([0, 1, 2, 3])
        elif d[0] == "arr1":
            domains.append([list(t) for k in (1, 2, 3) for t in itertools.product(range(4), repeat=k)][:60])
        elif d[0] == "arr2":
            cols = [list(t) for t in itertools.permutations(range(4), 3)][:8]
            domains.append([np.array([c0, c1]).T for c0 in cols for c1 in cols][:40])
        elif d[0] == "pairdict":
            domains.append([{}])
        else:
            domains.append([None])
    n = 0
    for combo in itertools.product(*domains):
        yield dict(zip(names, combo))
        n += 1
        if n >= limit:
            return


def native_search(modname, qualname, contracts_mod):
    """Bounded search for a concrete input on which the real function violates its contract."""
    contracts = importlib.import_module(contracts_mod).CONTRACTS
    name = qualname.split("::")[-1].split(".")[-1]
    c = contracts[name]
    f = get_function(modname, qualname)
    for args in small_inputs(c, 3000):
        try:
            ok, msg = VN.check_call(f, c, dict(args))
        except Exception:  # noqa
            continue
        if ok is False:
            return {k: (v.tolist() if isinstance(v, np.ndarray) else v) for k, v in args.items()}, msg
    return None, None


def replay_contract(modname, qualname, contracts_mod, args):
    contracts = importlib.import_module(contracts_mod).CONTRACTS
    name = qualname.split("::")[-1].split(".")[-1]
    a = {k: (np.array(v) if isinstance(v, list) else v) for k, v in args.items()}
    ok, msg = VN.check_call(get_function(modname, qualname), contracts[name], a)
    return {"violates": ok is False, "message": msg}


def ob_discharge(modname, qualname, contracts_mod, index):
    obs = generate(modname, qualname, contracts_mod)
    ob = obs[index]
    verdict, backend, dt, model = V.discharge(ob)
    if verdict == "proved":
        return proved(backend, "%s" % ("satisfiable" if ob.expect_sat else "unsat of the negated goal"))
    if verdict == "cover-unknown":
        # reachability diagnostics are not proof obligations; vacuity is excluded by the native witness obligation of the function
        return proved("native-witness", "cover query undetermined by z3; the precondition is shown satisfiable by the concrete witness run")
    if verdict == "vacuous":
        return {"status": "error", "backend": backend, "detail": "vacuity guard: path condition unsatisfiable at %s" % ob.name}
    if verdict == "refuted":
        args, msg = native_search(modname, qualname, contracts_mod)
        detail = "obligation refuted by %s: %s" % (backend, ob.name)
        if args is not None:
            return violated(detail + " -- real function violates its contract on %s: %s" % (args, msg), witness=args, backend=backend,
                            replay={"callable": "vlib.vrun:replay_contract", "kwargs": {"modname": modname, "qualname": qualname, "contracts_mod": contracts_mod, "args": args},
                                    "confirmed": True, "solver_model": str(model)[:1500] if model is not None else None},
                            signature="%s/%s" % (qualname, ob.kind.split("[")[0]))
        return violated(detail, backend=backend, replay={"confirmed": False, "solver_model": str(model)[:3000] if model is not None else None,
                                                         "note": "the solver model is an intermediate state; bounded native search over small inputs found no failing call"},
                        signature="%s/%s" % (qualname, ob.kind.split("[")[0]))
    return undecided("solver unknown on %s" % ob.name, backend=backend)


def ob_witness(modname, qualname, contracts_mod, witnesses):
    """pre-sat + engine-vs-CPython differential: the concrete witness inputs satisfy `requires`, and the real function (run by CPython)
    satisfies `ensures` / `raises` on them."""
    contracts = importlib.import_module(contracts_mod).CONTRACTS
    name = qualname.split("::")[-1].split(".")[-1]
    f = get_function(modname, qualname)
    n = 0
    for w in witnesses:
        a = {k: (np.array(v) if isinstance(v, list) else v) for k, v in w.items()}
        ok, msg = VN.check_call(f, contracts[name], a)
        if ok is None:
            return {"status": "error", "backend": "native", "detail": "witness does not satisfy the precondition of %s: %s" % (name, msg)}
        if ok is False:
            return violated("real function %s violates its contract on the witness %s: %s" % (name, w, msg), witness=w,
                            replay={"callable": "vlib.vrun:replay_contract", "kwargs": {"modname": modname, "qualname": qualname, "contracts_mod": contracts_mod, "args": w}, "confirmed": True},
                            signature="%s/witness" % qualname)
        n += 1
    return proved("native-witness", "%d concrete inputs satisfy requires; real function meets ensures/raises on them" % n)


def _outside_subset(qualname, msg):
    """the function under contract must stay inside the Python subset the VC generator accepts; otherwise its contract is undecided."""
    from vlib.framework import undecided

    return undecided("verification conditions of %s could not be generated from the current source (%s); the contract is undecided -- "
                     "either the function left the stated subset or the generator needs extending" % (qualname, msg[:300]))


def add_function(run, modname, qualname, contracts_mod, witnesses):
    f = get_function(modname, qualname)
    run.under_contract(f, qualname="%s.%s" % (modname, qualname), dropped="@numba.njit decorator and its locals= type pins; integer widths (mathematical integers)")
    if "::" in qualname:
        import hashlib

        run.functions["%s.%s" % (modname, qualname)]["sha256_16"] = hashlib.sha256(nested_source(modname, qualname).encode()).hexdigest()[:16]
        run.functions["%s.%s" % (modname, qualname)]["dropped"] = "nested function, extracted by name from the enclosing function's AST; mathematical integers"
    try:
        obs = count(modname, qualname, contracts_mod)
    except Exception as e:  # noqa: the function left the verified subset (or the generator failed): undecided, never a crash of the check
        msg = "%s: %s" % (type(e).__name__, e)
        run.add("%s::within-verified-subset" % qualname, "post", _outside_subset, qualname, msg)
        return
    if not obs:
        run.add("%s::no-obligations" % qualname, "post", _zero_obligations)
    for i, (name, kind, sat) in enumerate(obs):
        k = kind.split("[")[0]
        run.add(name, {"pre-sat": "pre-sat", "cover": "cover"}.get(k, k), ob_discharge, modname, qualname, contracts_mod, i)
    run.add("%s::witness" % qualname, "pre-sat", ob_witness, modname, qualname, contracts_mod, witnesses)


def mutants(src):
    """Fixed set of in-memory mutations of a function source (canaries for the engine's own soundness)."""
    import re

    out = []
    # mutate code only: skip the docstring (a pattern like `return -1` may occur in it, giving an equivalent "mutant")
    body_start = 0
    try:
        import ast as _ast

        fd = _ast.parse(src).body[0]
        if fd.body and isinstance(fd.body[0], _ast.Expr) and isinstance(getattr(fd.body[0], "value", None), _ast.Constant) and isinstance(fd.body[0].value.value, str):
            body_start = sum(len(l) + 1 for l in src.split("\n")[:fd.body[0].end_lineno])
    except SyntaxError:
        pass
    head, src = src[:body_start], src[body_start:]
    for pat, rep, label in ((r" \+ 1\b", "", "drop +1"), (r"== -1", "!= -1", "flip sentinel test"), (r"\[0, index\]", "[1, index]", "row swap"),
                            (r" < ", " > ", "flip <"), (r"return -1", "return 0", "wrong sentinel"), (r"index1 \+ start", "index1", "drop offset"),
                            (r"val1, val2 = val2, val1", "val1, val2 = val1, val2", "no swap"), (r"if edge_tuple not in", "if edge_tuple in", "flip membership")):
        m = re.search(pat, src)
        if m:
            out.append((label, head + src[:m.start()] + rep + src[m.end():]))
    return out


def ob_canary(modname, qualname, contracts_mod):
    """engine self-check: each applicable source mutation of the function makes at least one obligation fail (otherwise the verifier cannot see
    a broken body and is reported as a checker failure)."""
    f = get_function(modname, qualname)
    f = getattr(f, "py_func", f)
    src = textwrap.dedent(inspect.getsource(f))
    contracts = importlib.import_module(contracts_mod).CONTRACTS
    name = qualname.split(".")[-1]
    killed, total = 0, 0
    survivors = []
    for label, msrc in mutants(src):
        total += 1
        try:
            eng = V.Engine(f, dict(contracts[name], name=name), contracts, module_consts(modname), source=msrc)
            obs = eng.generate()
        except V.Unsupported:
            killed += 1
            continue
        except Exception:  # noqa
            killed += 1
            continue
        dead = False
        for ob in obs:
            if ob.expect_sat:
                continue
            v, be, dt, m = V.discharge(ob, 4000)
            if v != "proved":
                dead = True
                break
        if dead:
            killed += 1
        else:
            survivors.append(label)
    if survivors:
        return {"status": "error", "backend": "z3", "detail": "mutation canary: mutants %s of %s still verify -- contract too weak or engine unsound" % (survivors, qualname)}
    if total == 0:
        return proved("mutation-canary", "no applicable mutation pattern")
    return proved("mutation-canary", "%d/%d mutants rejected" % (killed, total))


def _zero_obligations():
    return {"status": "error", "detail": "zero obligations generated"}


# ---- block contracts (mechanically extracted loop bodies, vlib/vblock.py) -------------------------------------------------------

_BLOCK_CACHE = {}


def block_obligations(blocks_mod, name):
    from vlib import vblock as VB

    key = (blocks_mod, name)
    if key not in _BLOCK_CACHE:
        b = importlib.import_module(blocks_mod).BLOCKS[name]
        f = get_function(*b["function"])
        if b.get("slice_targets"):
            src, target, line = VB.extract_assignments(f, name, b["params"], b["returns"], b["slice_targets"], records=tuple(b.get("records", ())))
        elif b.get("loop") is None:
            src, target, line = VB.extract_method_body(f, name, b["params"], b["returns"])
        else:
            extract = VB.extract_method_loop_body if b.get("method") else VB.extract_loop_body
            kw = {k: b[k] for k in ("inner", "records") if k in b}
            src, target, line = extract(f, b["loop"][0], b["loop"][1], name, b["params"], b["returns"], **kw)
        eng = V.Engine(f, dict(b["contract"], name=name), b.get("callees", {}), {"_np": None}, source=src)
        obs = eng.generate()
        _BLOCK_CACHE[key] = (obs, sorted(set(eng.opaque_log)), src)
    return _BLOCK_CACHE[key]


def ob_block_canary(blocks_mod, name, mutations):
    """engine self-check for a block contract: each listed source mutation of the extracted block (a realistic slip) must make at least one obligation fail to
    prove within a budget 10x what the unmutated obligations need; a surviving mutant means the contract or the engine cannot see that change -> checker failure."""
    from vlib import smt

    obs, opaque, src = block_obligations(blocks_mod, name)
    b = importlib.import_module(blocks_mod).BLOCKS[name]
    f = get_function(*b["function"])
    survivors, killed = [], 0
    for old, new in mutations:
        if old not in src:
            return {"status": "error", "backend": "z3", "detail": "canary pattern %r no longer occurs in block %s (update the canary list)" % (old, name)}
        m = src.replace(old, new, 1)
        try:
            mobs = V.Engine(f, dict(b["contract"], name=name), b.get("callees", {}), {"_np": None}, source=m).generate()
        except Exception:  # noqa
            killed += 1
            continue
        dead = False
        for ob in mobs:
            if ob.expect_sat:
                continue
            s_ = z3.Solver()
            for a in ob.assumptions:
                s_.add(a)
            s_.add(z3.Not(ob.goal))
            r, _ = smt.z3_check(s_, 3.0)
            if r != "unsat":
                dead = True
                break
        if dead:
            killed += 1
        else:
            survivors.append("%s -> %s" % (old, new))
    if survivors:
        return {"status": "error", "backend": "z3", "detail": "mutants of block %s survive its contract: %s" % (name, survivors)}
    return proved("z3", "%d of %d source mutations of the block are rejected" % (killed, len(mutations)))


def native_block(blocks_mod, name, helpers=()):
    """The extracted block as a CPython function (same text the V-engine reads), plus the nested helper functions of the parent it calls (by name):
    used to run the block contract natively along real executions (requires hold where the real code reaches the block; ensures are not over-strict)."""
    import ast as _ast

    obs, opaque, src = block_obligations(blocks_mod, name)
    b = importlib.import_module(blocks_mod).BLOCKS[name]
    f = get_function(*b["function"])
    f = getattr(f, "py_func", f)
    f = getattr(f, "__wrapped__", f)
    fd = _ast.parse(textwrap.dedent(inspect.getsource(f))).body[0]
    scope = {"_np": np}
    for st in fd.body:
        if isinstance(st, _ast.FunctionDef) and st.name in helpers:
            exec(compile(_ast.Module(body=[st], type_ignores=[]), "<nested %s>" % st.name, "exec"), scope)
    exec(compile(src, "<block %s>" % name, "exec"), scope)
    return scope[name], b["contract"], b["params"]


def ob_block(blocks_mod, name, index):
    obs, opaque, src = block_obligations(blocks_mod, name)
    ob = obs[index]
    verdict, backend, dt, model = V.discharge(ob)
    if verdict == "proved":
        return proved(backend, "unsat of the negated goal" if not ob.expect_sat else "satisfiable")
    if verdict in ("cover-unknown",):
        return proved("native-witness", "sat query undetermined")
    if verdict == "vacuous":
        if ob.kind.startswith("pre-sat"):
            return {"status": "error", "backend": backend, "detail": "vacuity guard: the block precondition of %s is unsatisfiable" % name}
        return proved(backend, "branch unreachable on this (joined) path")
    if verdict in ("unknown", "refuted"):
        # look for a small concrete input on which the REAL block text violates its contract (bounded-instance model search + native replay, vlib/vbounded.py)
        from vlib import vbounded as VBD

        try:
            args, msg = VBD.search(blocks_mod, name, ob.name)
        except Exception as ex:  # noqa: the search is best effort; without it the obligation stays undecided / refuted-without-input
            args, msg = None, "bounded-instance search failed: %s: %s" % (type(ex).__name__, ex)
        if args is not None:
            return violated("block contract of %s: %s not established (%s) and the real block violates its contract on a small input: %s" % (name, ob.name, verdict, msg),
                            witness=args, backend=backend + "+z3(bounded instance)",
                            replay={"callable": "vlib.vbounded:replay_block_input", "kwargs": {"blocks_mod": blocks_mod, "name": name, "args": args}, "confirmed": True,
                                    "block_source": src},
                            signature="block/%s/%s" % (name, ob.kind.split("[")[0]))
    if verdict == "refuted" and opaque:
        # the block was executed with unconstrained values for expressions outside the subset: a counter-model may be an artefact of that over-approximation
        return undecided("block contract of %s not established (%s finds a counter-model, but expressions %s were over-approximated by unconstrained values): %s"
                         % (name, backend, opaque[:3], ob.name), backend=backend)
    if verdict == "refuted":
        return violated("block contract of %s refuted by %s: %s" % (name, backend, ob.name), backend=backend,
                        replay={"confirmed": False, "solver_model": str(model)[:3000] if model is not None else None, "block_source": src},
                        signature="block/%s/%s" % (name, ob.kind.split("[")[0]))
    return undecided("solver unknown on %s" % ob.name, backend=backend)


def _block_not_extractable(name, msg):
    return undecided("block %s is outside the V-engine subset / not found: %s" % (name, msg))


def add_block(run, blocks_mod, name):
    b = importlib.import_module(blocks_mod).BLOCKS[name]
    f = get_function(*b["function"])
    try:
        obs, opaque, src = block_obligations(blocks_mod, name)
    except (V.Unsupported, LookupError) as ex:
        run.add("%s::extractable" % name, "post", _block_not_extractable, name, str(ex))
        return
    if b.get("slice_targets"):
        run.under_contract(f, qualname="%s.%s [slice %s]" % (b["function"][0], b["function"][1], name),
                           dropped="everything but the top-level assignments to %s (program slice; what they read from the rest of the function enters as parameters); "
                                   "unconstrained values for: %s; float dtype of the number table (mathematical integers)" % (sorted(b["slice_targets"]), opaque))
    elif b.get("loop") is None:
        run.under_contract(f, qualname="%s.%s [whole method as function %s]" % (b["function"][0], b["function"][1], name),
                           dropped="`self.x` read as parameter / local `x`; docstring; expressions outside the V-engine subset evaluate to unconstrained values: %s; "
                                   "mathematical integers (no uint32 wrap-around)" % (opaque,))
    else:
        run.under_contract(f, qualname="%s.%s [block %s]" % (b["function"][0], b["function"][1], name),
                           dropped="everything but the body of the loop `for ... in %s` #%d (block contract per iteration); expressions outside the V-engine subset evaluate to "
                                   "unconstrained values: %s; numba decorator; mathematical integers" % (b["loop"][0], b["loop"][1], opaque))
    posts = [i for i, o in enumerate(obs) if not o.kind.startswith("cover")]
    if not [i for i in posts if obs[i].kind.startswith("post")]:
        run.add("%s::no-obligations" % name, "post", _zero_obligations)
    for i in posts:
        k = obs[i].kind.split("[")[0]
        run.add(obs[i].name, {"pre-sat": "pre-sat"}.get(k, "post" if k == "post" else k), ob_block, blocks_mod, name, i)
