"""Operator / space zoo for bounded run-time contracts on the real API (floats, JIT off in quick, optionally on in thorough)."""

import numpy as np

from vlib import symgrid as SG


def params(regular=3, singular=3):
    from bempp_cl.api.utils.parameters import DefaultParameters

    p = DefaultParameters()
    p.quadrature.regular = regular
    p.quadrature.singular = singular
    return p


SCALAR_OPS = {
    "laplace_single": ("laplace", "single_layer", None),
    "laplace_double": ("laplace", "double_layer", None),
    "laplace_adjoint": ("laplace", "adjoint_double_layer", None),
    "laplace_hyp": ("laplace", "hypersingular", None),
    "helmholtz_single": ("helmholtz", "single_layer", 1.3 + 0.4j),
    "helmholtz_double": ("helmholtz", "double_layer", 1.3),
    "helmholtz_adjoint": ("helmholtz", "adjoint_double_layer", 0.9 + 0.2j),
    "helmholtz_hyp": ("helmholtz", "hypersingular", 1.1 + 0.3j),
    "modified_single": ("modified_helmholtz", "single_layer", 0.8),
    "modified_double": ("modified_helmholtz", "double_layer", 0.8),
    "modified_adjoint": ("modified_helmholtz", "adjoint_double_layer", 0.8),
    "modified_hyp": ("modified_helmholtz", "hypersingular", 0.8),
}
MAXWELL_OPS = {"maxwell_electric": ("maxwell", "electric_field", 1.2 + 0.3j), "maxwell_magnetic": ("maxwell", "magnetic_field", 1.2)}


def boundary_operator(name, domain, range_, dual, par, wavenumber=None, assembler="default_nonlocal"):
    import importlib

    mod, fn, k = {**SCALAR_OPS, **MAXWELL_OPS}[name]
    m = importlib.import_module("bempp_cl.api.operators.boundary." + mod)
    k = k if wavenumber is None else wavenumber
    if k is None:
        return getattr(m, fn)(domain, range_, dual, parameters=par, assembler=assembler)
    if name in MAXWELL_OPS:
        # the element-wise (localised) RWG/SNC spaces carry the identifier "<kind>_localised", which the Maxwell factories reject; for the
        # reference operator A(full) of T'AT the guard is bypassed by presenting the base identifier during the factory call only
        # (harness device; the guard itself is under contract in C06).  Nothing in the assembly path reads the identifier.
        saved = [(s_, s_._identifier) for s_ in (domain, range_, dual) if str(s_._identifier).endswith("_localised")]
        try:
            for s_, ident in saved:
                s_._identifier = ident[: -len("_localised")]
            return getattr(m, fn)(domain, range_, dual, k, parameters=par, assembler=assembler)
        finally:
            for s_, ident in saved:
                s_._identifier = ident
    return getattr(m, fn)(domain, range_, dual, k, parameters=par, assembler=assembler)


def dense(op):
    from bempp_cl.api.assembly.discrete_boundary_operator import _DiscreteOperatorBase  # noqa

    w = op.weak_form()
    return w.to_dense() if hasattr(w, "to_dense") else np.asarray(w.A)


def grid_with_domains(name):
    """zoo grids with 2-3 domain indices"""
    if name == "screen2":
        v, e = SG.screen(2)
        di = np.array([1, 1, 2, 2, 1, 3, 2, 2], dtype="uint32")
    elif name == "octa":
        v, e = SG.octa()
        di = np.array([1, 1, 2, 2, 1, 2, 2, 3], dtype="uint32")
    elif name == "tetra":
        v, e = SG.tetra()
        di = np.array([1, 2, 2, 1], dtype="uint32")
    elif name == "cube12":
        v, e = SG.cube12()
        di = np.array([1, 1, 2, 2, 3, 3, 1, 1, 2, 2, 3, 3], dtype="uint32")
    elif name == "screen3":
        v, e = SG.screen(3)
        di = np.array([1 + (i % 5 in (0, 1)) + (i > 12) for i in range(18)], dtype="uint32")
    elif name == "two_tets_face":
        v, e = SG.two_tets_face()
        di = np.array([1, 1, 1, 3, 2, 2, 2], dtype="uint32")
    else:
        raise KeyError(name)
    return SG.make_grid(v, e, di)


def relerr(a, b):
    return float(np.linalg.norm(np.asarray(a) - np.asarray(b)) / max(1e-300, np.linalg.norm(np.asarray(b))))
